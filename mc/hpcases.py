"""Builders for the scatterer x theory and detector alphabets shared by the
scattering checks (C01, C04, C05, C06, C07).  Everything is constructed
through HoloPy's public constructors from plain numbers."""
import math
import warnings

import numpy as np

NMED, WL = 1.33, 0.66
K = 2 * math.pi * NMED / WL

# name -> (scatterer spec, theory spec)
#   scatterer spec: ("sphere", n, r, center) | ("spheres", [(n,r,c),...]) |
#                   ("spheroid", n, (a,c), rotation, center) |
#                   ("cylinder", n, h, d, rotation, center)
#   theory spec: (classname, args tuple, kwargs dict) or "auto"
C0 = (0.17, 0.11, 5.0)
ST = {
    "mie": (("sphere", 1.59, 0.5, C0), ("Mie", (), {})),
    "mie-norad": (("sphere", 1.59, 0.5, C0), ("Mie", (False, True), {})),
    "mie-asym": (("sphere", 1.59, 0.5, C0), ("Mie", (True, False), {})),
    "mie-far": (("sphere", 1.59, 0.5, C0), ("Mie", (False, False), {})),
    "mie-abs": (("sphere", 1.59 + 0.1j, 0.3, C0), ("Mie", (), {})),
    "layered": (("sphere", [1.45, 1.59], [0.3, 0.5], C0), ("Mie", (), {})),
    "ms1": (("sphere", 1.59, 0.5, C0), ("Multisphere", (), {})),
    "ms1-bcg": (("sphere", 1.59, 0.5, C0), ("Multisphere", (), {"meth": 0})),
    "mie2": (("spheres", [(1.59, 0.5, C0), (1.45, 0.3, (1.3, 0.9, 6.0))]),
             ("Mie", (), {})),
    "ms2": (("spheres", [(1.59, 0.5, C0), (1.45, 0.3, (1.3, 0.9, 6.0))]),
            ("Multisphere", (), {})),
    "mie3far": (("spheres", [(1.59, 0.5, C0), (1.45, 0.3, (40.0, 9.0, 6.0)),
                             ([1.45, 1.59], [0.2, 0.4], (-30.0, 5.0, 8.0))]),
                ("Mie", (), {})),
    "tm-sphere": (("sphere", 1.59, 0.5, C0), ("Tmatrix", (), {})),
    "tm-spheroid": (("spheroid", 1.59, (0.3, 0.6), (0.0, 0.4, 0.7), C0),
                    ("Tmatrix", (), {})),
    "tm-cylinder": (("cylinder", 1.59, 0.8, 0.6, (0.0, 0.4, 0.7), C0),
                    ("Tmatrix", (), {})),
    "mielens": (("sphere", 1.59, 0.5, C0), ("MieLens", (0.8,), {})),
    "abmielens": (("sphere", 1.59, 0.5, C0),
                  ("AberratedMieLens", ([0.1, 0.05], 0.8), {})),
    "mielens2": (("spheres", [(1.59, 0.5, C0), (1.45, 0.3, (1.3, 0.9, 6.0))]),
                 ("MieLens", (0.8,), {})),
    "lens-mie": (("sphere", 1.59, 0.5, C0),
                 ("Lens", (0.8, ("Mie", (False, False), {}), 64, 64), {})),
    "auto": (("sphere", 1.59, 0.5, C0), "auto"),
}


def mk_scatterer(spec, scale=1.0, shift=(0.0, 0.0, 0.0)):
    from holopy.scattering import Sphere, Spheres, Spheroid, Cylinder

    def c3(c):
        return tuple((np.asarray(c, float) + np.asarray(shift, float))
                     * scale)

    def sc(v):
        if isinstance(v, (list, tuple)):
            return [x * scale for x in v]
        return v * scale
    kind = spec[0]
    if kind == "sphere":
        n = spec[1]
        return Sphere(n=list(n) if isinstance(n, list) else n, r=sc(spec[2]),
                      center=c3(spec[3]))
    if kind == "spheres":
        with warnings.catch_warnings():
            warnings.simplefilter("ignore")
            return Spheres([mk_scatterer(("sphere",) + tuple(m), scale, shift)
                            for m in spec[1]])
    if kind == "spheroid":
        return Spheroid(n=spec[1], r=tuple(sc(list(spec[2]))),
                        rotation=spec[3], center=c3(spec[4]))
    if kind == "cylinder":
        return Cylinder(n=spec[1], h=sc(spec[2]), d=sc(spec[3]),
                        rotation=spec[4], center=c3(spec[5]))
    raise ValueError(kind)


def mk_theory(spec):
    import holopy.scattering.theory as T
    if spec == "auto":
        return "auto"
    name, args, kw = spec
    args = tuple(mk_theory(a) if isinstance(a, tuple) and len(a) == 3 and
                 isinstance(a[0], str) and hasattr(T, a[0]) else a
                 for a in args)
    with warnings.catch_warnings():
        warnings.simplefilter("ignore")
        return getattr(T, name)(*args, **kw)


def mk(key, scale=1.0, shift=(0.0, 0.0, 0.0)):
    s, t = ST[key]
    return mk_scatterer(s, scale, shift), mk_theory(t)


# --------------------------------------------------------------------------
# detectors:  name -> builder(scale) -> DataArray without optics
# --------------------------------------------------------------------------
def det_grid(shape, spacing, origin=None, scale=1.0, name=None,
             extra_dims=None):
    import holopy as hp
    sp = (np.asarray(spacing, float) * scale)
    sp = float(sp) if sp.ndim == 0 else list(sp)
    d = hp.detector_grid(shape, sp, name=name, extra_dims=extra_dims)
    if origin is not None:
        d = d.assign_coords(x=d.x + origin[0] * scale,
                            y=d.y + origin[1] * scale)
    return d


def det_points(pts, scale=1.0, name=None):
    import holopy as hp
    pts = np.asarray(pts, float) * scale
    return hp.detector_points(x=pts[:, 0], y=pts[:, 1], z=pts[:, 2],
                              name=name)


DETS = {
    "g3x3": lambda s=1.0: det_grid(3, 0.1, scale=s),
    "g1x1": lambda s=1.0: det_grid(1, 0.1, scale=s),
    "g1x4": lambda s=1.0: det_grid((1, 4), 0.1, scale=s),
    "g4x5a": lambda s=1.0: det_grid((4, 5), (0.1, 0.13), scale=s),
    "g3x3o": lambda s=1.0: det_grid(3, 0.1, origin=(0.31, -0.2), scale=s,
                                    name="shifted"),
    "p3": lambda s=1.0: det_points([[0.0, 0.0, 0.0], [0.3, -0.2, 0.5],
                                    [-0.4, 0.25, -0.3]], s),
    "p4z0": lambda s=1.0: det_points([[0.0, 0.0, 0.0], [0.3, -0.2, 0.0],
                                      [-0.4, 0.25, 0.0], [0.1, 0.1, 0.0]], s,
                                     name="pts"),
}

HOLOPY_REFUSALS = ("TheoryNotCompatibleError", "InvalidScatterer",
                   "MissingParameter", "DependencyMissing",
                   "AutoTheoryFailed", "NoCenter")


def is_refusal(exc):
    """an explicit refusal by HoloPy (its own error types, or the ValueError
    MieLens raises for detectors that are not at one z)"""
    n = type(exc).__name__
    if n in HOLOPY_REFUSALS:
        return True
    if isinstance(exc, ValueError) and (
            "fixed z" in str(exc) or "[1,0] polarization" in str(exc)):
        return True
    return False

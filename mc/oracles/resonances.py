"""Narrow (morphology-dependent) resonances of a homogeneous sphere: size
parameters at which one partial wave of order n > x + 1 has |a_n| or |b_n|
close to 1 over a width of 1e-3 .. 1e-2 in x.  Series that are cut by a
"terms have become small" rule lose exactly these waves.  Used to place
cases, not as an oracle (HoloPy's Mie and Multisphere are compared with each
other and with the mpmath table at these sizes)."""
import numpy as np
from scipy.special import spherical_jn, spherical_yn
def coeff_mags(m, xs, nmax):
    """|a_n|, |b_n| (n = 1..nmax) of a real-index sphere on a grid of size parameters"""
    out_a = np.zeros((nmax, xs.size)); out_b = np.zeros((nmax, xs.size))
    for n in range(1, nmax + 1):
        jx, jmx = spherical_jn(n, xs), spherical_jn(n, m * xs)
        yx = spherical_yn(n, xs)
        djx, djmx = spherical_jn(n, xs, True), spherical_jn(n, m * xs, True)
        dyx = spherical_yn(n, xs, True)
        psx, psmx = xs * jx, m * xs * jmx
        dpsx, dpsmx = jx + xs * djx, jmx + m * xs * djmx
        xix = xs * (jx + 1j * yx); dxix = (jx + 1j * yx) + xs * (djx + 1j * dyx)
        a = (m * psmx * dpsx - psx * dpsmx) / (m * psmx * dxix - xix * dpsmx)
        b = (psmx * dpsx - m * psx * dpsmx) / (psmx * dxix - m * xix * dpsmx)
        out_a[n - 1], out_b[n - 1] = abs(a), abs(b)
    return out_a, out_b
def resonances(m, xlo, xhi, step=2e-4, keep=3):
    xs = np.arange(xlo, xhi, step)
    nmax = int(xhi + 4 * xhi ** (1 / 3.) + 2)
    A, B = coeff_mags(m, xs, nmax)
    found = []
    for kind, C in (("a", A), ("b", B)):
        for n in range(1, nmax + 1):
            c = C[n - 1]
            pk = np.where((c[1:-1] > c[:-2]) & (c[1:-1] >= c[2:]) & (c[1:-1] > 0.9))[0] + 1
            for i in pk:
                if n <= xs[i] + 1:      # only partial waves beyond the size parameter
                    continue
                # full width at half maximum
                half = c[i] / 2
                l = i
                while l > 0 and c[l] > half: l -= 1
                r = i
                while r < c.size - 1 and c[r] > half: r += 1
                found.append(((r - l) * step, round(float(xs[i]), 4), kind, n))
    found.sort()
    return found


def table():
    """the committed table written by tools/gen_resonances.py:
    {m: [(x, 'a'|'b', n, width), ...]} sorted by width"""
    import json
    import os
    path = os.path.join(os.path.dirname(os.path.abspath(__file__)),
                        "resonances.json")
    return {float(k): [tuple(r) for r in v]
            for k, v in json.load(open(path)).items()}

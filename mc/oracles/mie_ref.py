"""Textbook Lorenz-Mie reference (Bohren & Huffman ch. 4), independent of
HoloPy.  Coefficients a_n, b_n come from a table computed with mpmath at 60
digits (tools/mie_mp.py; committed as mie_table_mp.json, missing keys are
computed on demand through the same script and cached in the stage dir).
Everything downstream (pi_n, tau_n, S1, S2, near/far fields, cross
sections) is written here from the book with numpy/scipy only.
"""
import json
import os
import subprocess
import sys

import numpy as np

HERE = os.path.dirname(os.path.abspath(__file__))
VERIF = os.path.dirname(os.path.dirname(HERE))
TABLE = os.path.join(HERE, "mie_table_mp.json")
MP_SCRIPT = os.path.join(VERIF, "tools", "mie_mp.py")
MP_PY = "python3-vt"

_tab = None
_cache_loaded = None


def _cache_path():
    d = os.environ.get("HOLOPY_VERIF_STAGE")
    return os.path.join(d, "mie_cache.json") if d else None


def _load():
    global _tab, _cache_loaded
    if _tab is None:
        _tab = {}
        if os.path.exists(TABLE):
            with open(TABLE) as f:
                _tab.update(json.load(f))
    cp = _cache_path()
    if cp and os.path.exists(cp):
        mt = os.path.getmtime(cp)
        if _cache_loaded != mt:
            with open(cp) as f:
                _tab.update(json.load(f))
            _cache_loaded = mt
    return _tab


def key_homog(m, x):
    m = complex(m)
    return "H|%r|%r|%r" % (float(m.real), float(m.imag), float(x))


def key_layered(ms, xs):
    return "L|" + ";".join("%r,%r" % (float(complex(m).real),
                                      float(complex(m).imag)) for m in ms) \
        + "|" + ";".join("%r" % float(x) for x in xs)


def req_homog(m, x):
    m = complex(m)
    return {"kind": "homog", "m": [float(m.real), float(m.imag)],
            "x": float(x)}


def req_layered(ms, xs):
    return {"kind": "layered",
            "m": [[float(complex(m).real), float(complex(m).imag)]
                  for m in ms], "x": [float(x) for x in xs]}


def _req_key(r):
    if r["kind"] == "homog":
        return key_homog(complex(*r["m"]), r["x"])
    return key_layered([complex(*m) for m in r["m"]], r["x"])


def _compute(reqs):
    p = subprocess.run([MP_PY, MP_SCRIPT], input=json.dumps(reqs),
                       capture_output=True, text=True)
    if p.returncode != 0:
        raise RuntimeError("mpmath oracle failed: " + p.stderr[-2000:])
    return {o["key"]: {"a": o["a"], "b": o["b"]} for o in json.loads(p.stdout)}


def ensure(reqs, nproc=16):
    """compute all missing table entries (driver side, before the pool
    starts) and store them in the per-run cache file."""
    from concurrent.futures import ThreadPoolExecutor
    tab = _load()
    seen = set()
    todo = []
    for r in reqs:
        k = _req_key(r)
        if k not in tab and k not in seen:
            seen.add(k)
            todo.append(r)
    if not todo:
        return 0
    # heavy ones first, round-robin into chunks
    def cost(r):
        return r["x"] if r["kind"] == "homog" else 3 * r["x"][-1]
    todo.sort(key=cost, reverse=True)
    n = min(nproc, len(todo))
    chunks = [todo[i::n] for i in range(n)]
    new = {}
    with ThreadPoolExecutor(n) as ex:
        for res in ex.map(_compute, chunks):
            new.update(res)
    tab.update(new)
    cp = _cache_path()
    if cp:
        old = {}
        if os.path.exists(cp):
            with open(cp) as f:
                old = json.load(f)
        old.update(new)
        tmp = cp + ".tmp%d" % os.getpid()
        with open(tmp, "w") as f:
            json.dump(old, f)
        os.replace(tmp, cp)
    return len(new)


def _get(req):
    tab = _load()
    k = _req_key(req)
    if k not in tab:
        tab.update(_compute([req]))
    e = tab[k]
    a = np.array([float(r) + 1j * float(i) for r, i in e["a"]])
    b = np.array([float(r) + 1j * float(i) for r, i in e["b"]])
    return a, b


def coeffs(m, x):
    return _get(req_homog(m, x))


def coeffs_layered(ms, xs):
    return _get(req_layered(ms, xs))


# --------------------------------------------------------------------------
# angular functions, amplitudes, fields
# --------------------------------------------------------------------------
def pi_tau(N, theta):
    """pi_n, tau_n for n = 1..N at angles theta (B&H eq. 4.47).  Shape
    (N, len(theta))."""
    theta = np.atleast_1d(np.asarray(theta, dtype=float))
    mu = np.cos(theta)
    pi = np.zeros((N + 1, theta.size))
    tau = np.zeros((N + 1, theta.size))
    pi[1] = 1.0
    if N >= 2:
        pi[2] = 3.0 * mu
    tau[1] = mu
    for n in range(2, N + 1):
        if n > 2:
            pi[n] = ((2 * n - 1) * mu * pi[n - 1] - n * pi[n - 2]) / (n - 1)
        tau[n] = n * mu * pi[n] - (n + 1) * pi[n - 1]
    return pi[1:], tau[1:]


def S12(a, b, theta):
    N = len(a)
    n = np.arange(1, N + 1)
    pi, tau = pi_tau(N, theta)
    w = ((2 * n + 1) / (n * (n + 1.0)))[:, None]
    S1 = (w * (a[:, None] * pi + b[:, None] * tau)).sum(0)
    S2 = (w * (a[:, None] * tau + b[:, None] * pi)).sum(0)
    return S1, S2


def cross_sections(a, b, k):
    """C_sca, C_ext, g from the series (B&H 4.61, 4.62, p. 120)."""
    N = len(a)
    n = np.arange(1, N + 1)
    csca = 2 * np.pi / k ** 2 * ((2 * n + 1) * (abs(a) ** 2 +
                                                abs(b) ** 2)).sum()
    cext = 2 * np.pi / k ** 2 * ((2 * n + 1) * (a + b).real).sum()
    s1 = (n[:-1] * (n[:-1] + 2.0) / (n[:-1] + 1.0) *
          (a[:-1] * np.conj(a[1:]) + b[:-1] * np.conj(b[1:])).real).sum()
    s2 = ((2 * n + 1.0) / (n * (n + 1.0)) * (a * np.conj(b)).real).sum()
    g = 4 * np.pi / (k ** 2 * csca) * (s1 + s2)
    return csca, cext, g


def _sph_hankel1(N, rho):
    """h_n^(1)(rho), n = 0..N, and d/drho [rho h_n] / rho for n=1..N"""
    from scipy.special import spherical_jn, spherical_yn
    n = np.arange(0, N + 1)[:, None]
    rho = np.asarray(rho, dtype=float)[None, :]
    h = spherical_jn(n, rho) + 1j * spherical_yn(n, rho)
    # [rho h_n]' / rho = h_{n-1} - n h_n / rho
    d = h[:-1] - n[1:] * h[1:] / rho
    return h[1:], d


def field_spherical(a, b, kr, theta, phi, pol, full_radial=True,
                    radial_component=True):
    """Scattered field components (E_r, E_theta, E_phi) at points given in
    the scattering frame (z along propagation), for unit-amplitude incident
    polarization pol=(px, py) (B&H eq. 4.45; far field 4.74)."""
    kr = np.atleast_1d(np.asarray(kr, dtype=float))
    theta = np.atleast_1d(np.asarray(theta, dtype=float))
    phi = np.atleast_1d(np.asarray(phi, dtype=float))
    px, py = pol
    epar = np.cos(phi) * px + np.sin(phi) * py
    eperp = np.sin(phi) * px - np.cos(phi) * py
    N = len(a)
    n = np.arange(1, N + 1)
    pi, tau = pi_tau(N, theta)
    if radial_component:
        # the radial component always carries the exact spherical Hankel
        # function (B&H 4.45: only N_e1n has one); HoloPy does the same for
        # both radial-dependence options
        h0, _ = _sph_hankel1(N, kr)
        En0 = (1j ** n * (2 * n + 1) / (n * (n + 1.0)))[:, None]
        Er = (En0 * 1j * a[:, None] * (n * (n + 1.0))[:, None] *
              np.sin(theta)[None, :] * pi * h0 / kr[None, :]).sum(0) * epar
    if not full_radial:
        S1, S2 = S12(a, b, theta)
        pref = 1j * np.exp(1j * kr) / kr
        Eth = pref * S2 * epar
        Eph = -pref * S1 * eperp
        if not radial_component:
            Er = np.zeros_like(Eth)
        return Er, Eth, Eph
    h, dh = _sph_hankel1(N, kr)
    En = (1j ** n * (2 * n + 1) / (n * (n + 1.0)))[:, None]
    ia = 1j * a[:, None]
    bb = b[:, None]
    # E = sum En (i a N_e1n - b M_o1n); cos(phi)->epar, sin(phi)->eperp
    Eth = (En * (ia * tau * dh - bb * pi * h)).sum(0) * epar
    Eph = (En * (-ia * pi * dh + bb * tau * h)).sum(0) * eperp
    if not radial_component:
        Er = np.zeros_like(Eth)
    return Er, Eth, Eph


def sph_to_cart(Er, Eth, Eph, theta, phi):
    st, ct, sp, cp = np.sin(theta), np.cos(theta), np.sin(phi), np.cos(phi)
    Ex = Er * st * cp + Eth * ct * cp - Eph * sp
    Ey = Er * st * sp + Eth * ct * sp + Eph * cp
    Ez = Er * ct - Eth * st
    return Ex, Ey, Ez


def holopy_field(a, b, k, center, pts, pol, full_radial=True,
                 radial_component=True):
    """Field as HoloPy reports it: detector points pts (N,3) in the lab
    frame, particle at `center`.  Scattering frame = (x-x0, y-y0, z0-z);
    overall phase exp(-i k z0).  Returns (Ex, Ey, Ez') with Ez' in the
    scattering frame."""
    pts = np.asarray(pts, dtype=float)
    dx = k * (pts[:, 0] - center[0])
    dy = k * (pts[:, 1] - center[1])
    dz = k * (center[2] - pts[:, 2])
    kr = np.sqrt(dx * dx + dy * dy + dz * dz)
    theta = np.arctan2(np.sqrt(dx * dx + dy * dy), dz)
    phi = np.arctan2(dy, dx)
    nrm = np.hypot(pol[0], pol[1])
    p = (pol[0] / nrm, pol[1] / nrm)
    Er, Eth, Eph = field_spherical(a, b, kr, theta, phi, p, full_radial,
                                   radial_component)
    Ex, Ey, Ez = sph_to_cart(Er, Eth, Eph, theta, phi)
    ph = np.exp(-1j * k * center[2])
    return Ex * ph, Ey * ph, Ez * ph


def rayleigh(m, x, k):
    """Rayleigh-limit cross sections (B&H 5.7, 5.8): returns csca, cabs"""
    pol = (m * m - 1) / (m * m + 2)
    qsca = 8.0 / 3.0 * x ** 4 * abs(pol) ** 2
    qabs = 4 * x * pol.imag
    area = np.pi * (x / k) ** 2
    return qsca * area, qabs * area

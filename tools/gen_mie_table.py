#!/venv/bin/python
"""Regenerate mc/oracles/mie_table_mp.json: run cases() of every module that
uses the mpmath oracle (both tiers) with a scratch cache, then merge the
cache into the committed table."""
import importlib, json, os, sys, tempfile
VERIF = os.path.dirname(os.path.dirname(os.path.abspath(__file__)))
sys.path.insert(0, os.path.join(VERIF, "mc"))
import stage
sdir = stage.stage()
sys.path.insert(0, sdir)
os.environ["HOLOPY_VERIF_STAGE"] = sdir
from oracles import mie_ref
try:
    for prop in ("c01", "c02", "c03"):
        mod = importlib.import_module("props." + prop)
        for tier in ("quick", "thorough"):
            n = len(mod.cases(tier, 0))
            print(prop, tier, n, "cases")
    tab = mie_ref._load()
    with open(mie_ref.TABLE, "w") as f:
        json.dump(tab, f, separators=(",", ":"))
    print("table entries:", len(tab), "bytes:", os.path.getsize(mie_ref.TABLE))
finally:
    stage.cleanup(sdir)

#!/usr/bin/env python3-vt
"""Lorenz-Mie coefficients in 60-digit arithmetic (mpmath), straight from the
defining ratios of Riccati-Bessel functions (Bohren & Huffman eq. 4.53), and
layered-sphere coefficients by matching tangential fields at every
interface.  Independent of HoloPy (shares no code, no recursion scheme).

CLI: reads a JSON list of requests on stdin
    {"kind": "homog", "m": [re, im], "x": x}
    {"kind": "layered", "m": [[re, im], ...], "x": [x1, ..., xL]}
and writes a JSON list of {"key":..., "a": [[re,im],...], "b": [...]}.
"""
import json
import sys

import mpmath as mp

mp.mp.dps = 60


def nmax_for(x):
    x = float(x)
    return int(x + 4.05 * x ** (1.0 / 3.0) + 2) + 14


def _psi(n, z):
    # psi_n(z) = z j_n(z) = sqrt(pi z / 2) J_{n+1/2}(z)
    return mp.sqrt(mp.pi * z / 2) * mp.besselj(n + mp.mpf(1) / 2, z)


def _chi(n, z):
    # chi_n(z) = -z y_n(z)
    return -mp.sqrt(mp.pi * z / 2) * mp.bessely(n + mp.mpf(1) / 2, z)


def _table(fun, nmax, z):
    """values n = 0..nmax and derivatives n = 1..nmax  (f' = f_{n-1} - n f_n/z)"""
    vals = [fun(n, z) for n in range(nmax + 1)]
    der = [None] + [vals[n - 1] - n * vals[n] / z for n in range(1, nmax + 1)]
    return vals, der


def _dps_for(z):
    # |psi(z)| ~ exp(|Im z|): keep 60 significant digits after cancellation
    return int(60 + 2 * abs(mp.im(z)) / mp.log(10) + 10)


def homog(m, x, nmax=None):
    m = mp.mpc(*m) if not isinstance(m, mp.mpc) else m
    x = mp.mpf(x)
    nmax = nmax or nmax_for(x)
    mp.mp.dps = _dps_for(m * x)
    psx, dpsx = _table(_psi, nmax, x)
    chx, dchx = _table(_chi, nmax, x)
    psm, dpsm = _table(_psi, nmax, m * x)
    a, b = [], []
    for n in range(1, nmax + 1):
        xi = psx[n] - 1j * chx[n]
        dxi = dpsx[n] - 1j * dchx[n]
        an = (m * psm[n] * dpsx[n] - psx[n] * dpsm[n]) / \
             (m * psm[n] * dxi - xi * dpsm[n])
        bn = (psm[n] * dpsx[n] - m * psx[n] * dpsm[n]) / \
             (psm[n] * dxi - m * xi * dpsm[n])
        a.append(an)
        b.append(bn)
    mp.mp.dps = 60
    return a, b


def layered(ms, xs, nmax=None):
    """ms[l] relative index of layer l (inner first), xs[l] = k_medium * outer
    radius of layer l.  In layer l the radial functions are
    U = A psi_n(m_l k r) + B chi_n(m_l k r).  TM (a_n): m*U and U' are
    continuous ... written as in DESIGN.md section 3:
    TM: continuity of  U'           and  m U      ->   (P, Q) = (m U, U')
    TE: continuity of  V            and  V'/m ... -> (P, Q) = (V, m V')
    outer:  a = (psi Q - psi' P)/(xi Q - xi' P)"""
    ms = [mp.mpc(*m) for m in ms]
    xs = [mp.mpf(x) for x in xs]
    nmax = nmax or nmax_for(xs[-1])
    mp.mp.dps = max(_dps_for(m * x) for m in ms for x in xs)
    a, b = [], []
    xo = xs[-1]
    for n in range(1, nmax + 1):
        def fd(fun, z):
            f = fun(n, z)
            return f, fun(n - 1, z) - n * f / z
        res = []
        for mode in ("TM", "TE"):
            # innermost layer: regular solution only
            A, B = mp.mpf(1), mp.mpf(0)
            for l in range(len(ms) - 1):
                z1 = ms[l] * xs[l]
                z2 = ms[l + 1] * xs[l]
                p1, dp1 = fd(_psi, z1)
                c1, dc1 = fd(_chi, z1)
                U = A * p1 + B * c1
                dU = A * dp1 + B * dc1
                # E_tangential and H_tangential continuity in terms of the
                # Riccati functions: TM: (U'/m ... ) use the standard form
                # TM (a_n-type):  U/ m   ... see below
                if mode == "TM":
                    # continuity of  U'(z)/1  and  U(z)/m  scaled:  m*U' ?
                    # Derivation: for TM (electric type) modes the tangential
                    # E ~ U'(m k r)/(m k r) * ... and tangential H ~ U(mkr)/r,
                    # so continuity requires  U'/m  and  U  continuous.
                    lhsF, lhsG = U, dU / ms[l]
                    # solve A2 psi(z2)+B2 chi(z2) = lhsF ;
                    #       (A2 psi'(z2)+B2 chi'(z2))/m2 = lhsG
                    p2, dp2 = fd(_psi, z2)
                    c2, dc2 = fd(_chi, z2)
                    M = mp.matrix([[p2, c2], [dp2 / ms[l + 1], dc2 / ms[l + 1]]])
                else:
                    # TE (magnetic type): tangential E ~ V/r, tangential
                    # H ~ m V'/(...)  => V and m V' ... continuity of V/m? --
                    # E_t ~ V(mkr)/(m k r) -> V/m continuous; H_t ~ V'(mkr)
                    lhsF, lhsG = U / ms[l], dU
                    p2, dp2 = fd(_psi, z2)
                    c2, dc2 = fd(_chi, z2)
                    M = mp.matrix([[p2 / ms[l + 1], c2 / ms[l + 1]],
                                   [dp2, dc2]])
                # 2x2 Cramer (LU mis-reports singularity when psi ~ 1e-40
                # and chi ~ 1e+40 at high order)
                det = M[0, 0] * M[1, 1] - M[0, 1] * M[1, 0]
                A = (lhsF * M[1, 1] - M[0, 1] * lhsG) / det
                B = (M[0, 0] * lhsG - lhsF * M[1, 0]) / det
            mL = ms[-1]
            z = mL * xo
            pL, dpL = fd(_psi, z)
            cL, dcL = fd(_chi, z)
            U = A * pL + B * cL
            dU = A * dpL + B * dcL
            px, dpx = fd(_psi, xo)
            cx, dcx = fd(_chi, xo)
            xi, dxi = px - 1j * cx, dpx - 1j * dcx
            if mode == "TM":
                # outside: psi - a xi ;  continuity of F and F'/m:
                #   psi - a xi = U ; psi' - a xi' = U'/mL
                F, G = U, dU / mL
            else:
                #   (psi - b xi) = U/mL ; psi' - b xi' = U'
                F, G = U / mL, dU
            # psi - c xi = t F ; psi' - c xi' = t G  -> c
            c = (px * G - dpx * F) / (xi * G - dxi * F)
            res.append(c)
        a.append(res[0])
        b.append(res[1])
    mp.mp.dps = 60
    return a, b


def key_homog(m, x):
    return "H|%r|%r|%r" % (float(m[0]), float(m[1]), float(x))


def key_layered(ms, xs):
    return "L|" + ";".join("%r,%r" % (float(m[0]), float(m[1])) for m in ms) \
        + "|" + ";".join("%r" % float(x) for x in xs)


def _out(seq):
    return [[mp.nstr(mp.re(c), 20), mp.nstr(mp.im(c), 20)] for c in seq]


def main():
    reqs = json.load(sys.stdin)
    out = []
    for r in reqs:
        if r["kind"] == "homog":
            a, b = homog(r["m"], r["x"])
            k = key_homog(r["m"], r["x"])
        else:
            a, b = layered(r["m"], r["x"])
            k = key_layered(r["m"], r["x"])
        out.append({"key": k, "a": _out(a), "b": _out(b)})
    json.dump(out, sys.stdout)


if __name__ == "__main__":
    main()

#!/bin/bash
# run every thorough tier once; print one summary line per property;
# exit 1 if any of them reported a violation or failed
bad=0
for i in 19 20 18 14 11 16 15 12 09 05 06 02 03 04 10 13 17 07 08 01; do
  s=$(date +%s)
  out=$(VERIF_NO_EVIDENCE=${VERIF_NO_EVIDENCE:-} /venv/bin/python mc/run.py --property C$i --tier thorough 2>&1; echo "rc=$?")
  e=$(date +%s)
  echo "=== C$i thorough $((e-s))s"
  echo "$out" | grep -v "^  \[\|KNOWN-FINDING" | tail -5 | cut -c1-300
  echo "$out" | grep -q "^rc=0$" || { bad=1; echo "!!! C$i FAILED"; }
done
[ $bad = 0 ] && echo "ALL-THOROUGH-CLEAN" || echo "SOME-THOROUGH-FAILED"
exit $bad

#!/bin/bash
# run every thorough tier once; print one summary line per property
for i in 19 20 18 14 11 16 15 12 09 05 06 02 03 04 10 13 17 07 08 01; do
  s=$(date +%s)
  out=$(VERIF_NO_EVIDENCE=${VERIF_NO_EVIDENCE:-} /venv/bin/python mc/run.py --property C$i --tier thorough 2>&1 | grep -v "^  \[\|KNOWN-FINDING" | tail -4)
  e=$(date +%s)
  echo "=== C$i thorough $((e-s))s"; echo "$out" | cut -c1-300
done

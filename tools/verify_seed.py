#!/usr/bin/env python3
"""Verify one seeded property-breaking change and record it.

    tools/verify_seed.py <dir with patch.diff demo.py meta.json> <seed id>
                         [--props C05,C08] [--thorough]

1. fresh scratch worktree of /repo HEAD (outside /repo and /verif);
2. demo on the unmodified tree must PASS;
3. apply patch.diff; baseline test-suite must keep its 400 stable passes;
4. demo on the patched tree must FAIL;
5. run our quick check(s) against the patched tree (VERIF_REPO), optionally
   the thorough tier when quick misses;
6. copy patch/demo/meta (augmented with what we ran and saw) to
   /verif/seeded/<seed id>/ and remove the worktree + build output.
Nothing is ever applied to /repo itself.
"""
import json
import os
import shutil
import subprocess
import sys
import tempfile

VERIF = os.path.dirname(os.path.dirname(os.path.abspath(__file__)))
PY = "/venv/bin/python"


def sh(cmd, **kw):
    return subprocess.run(cmd, capture_output=True, text=True, **kw)


def build(wt):
    r = sh([PY, os.path.join(VERIF, "mc", "stage.py")],
           env=dict(os.environ, VERIF_REPO=wt))
    d = r.stdout.strip().splitlines()[-1] if r.stdout.strip() else ""
    if not os.path.isdir(d):
        raise RuntimeError("build failed: " + r.stderr[-2000:])
    return d


def run_demo(demo, wt):
    d = build(wt)
    try:
        env = dict(os.environ, PYTHONPATH=d, OMP_NUM_THREADS="1",
                   MPLBACKEND="Agg", PYTHONWARNINGS="ignore")
        # (some demos take the checkout to import from as argv[1])
        r = sh([PY, demo, d], env=env, cwd=d, timeout=1800)
        return r.returncode, (r.stdout + r.stderr)[-600:]
    finally:
        shutil.rmtree(d, ignore_errors=True)


def run_check(prop, wt, tier, pairs=False):
    env = dict(os.environ, VERIF_REPO=wt, VERIF_NO_EVIDENCE="1")
    if not pairs:
        env["VERIF_NO_PAIRS"] = "1"
    r = sh([PY, os.path.join(VERIF, "mc", "run.py"), "--property", prop,
            "--tier", tier], env=env)
    lines = r.stdout.splitlines()
    nv = sum(1 for l in lines if l.startswith("VIOLATION"))
    first = [l.strip()[:260] for l in lines if l.startswith("  violation")][:3]
    return {"rc": r.returncode, "violation_lines": nv, "first": first}


def main():
    src, sid = sys.argv[1], sys.argv[2]
    props = None
    thorough = "--thorough" in sys.argv
    for a in sys.argv[3:]:
        if a.startswith("--props"):
            props = a.split("=", 1)[1].split(",")
    meta = json.load(open(os.path.join(src, "meta.json")))
    props = props or [meta["property"]]
    wt = tempfile.mkdtemp(prefix="vs_wt_", dir="/tmp")
    os.rmdir(wt)
    sh(["git", "-C", "/repo", "worktree", "add", "--detach", wt, "HEAD"])
    out = {"seed_id": sid, "repo_head": sh(
        ["git", "-C", "/repo", "rev-parse", "--short", "HEAD"]).stdout.strip()}
    try:
        demo = os.path.join(src, "demo.py")
        rc0, o0 = run_demo(demo, wt)
        out["demo_unpatched_rc"] = rc0
        ap = sh(["git", "-C", wt, "apply", os.path.join(os.path.abspath(src),
                                                       "patch.diff")])
        out["patch_applies"] = ap.returncode == 0
        if ap.returncode != 0:
            out["apply_error"] = ap.stderr[-500:]
            print(json.dumps(out, indent=1))
            return 2
        b = sh([sys.executable, os.path.join(VERIF, "tools", "baseline.py"),
                wt])
        out["baseline"] = b.stdout.strip().splitlines()[0] if b.stdout else \
            b.stderr[-300:]
        out["baseline_ok"] = b.returncode == 0
        rc1, o1 = run_demo(demo, wt)
        out["demo_patched_rc"] = rc1
        out["demo_patched_tail"] = o1[-300:]
        out["checks"] = {}
        for p in props:
            res = run_check(p, wt, "quick")
            out["checks"][p + ":quick"] = res
            if res["violation_lines"] == 0 and thorough:
                out["checks"][p + ":thorough"] = run_check(p, wt, "thorough")
        out["detected_by"] = [k for k, v in out["checks"].items()
                              if v["violation_lines"] > 0]
        valid = (rc0 == 0 and rc1 != 0 and out["baseline_ok"])
        out["valid_seed"] = valid
        dst = os.path.join(VERIF, "seeded", sid)
        os.makedirs(dst, exist_ok=True)
        shutil.copy(os.path.join(src, "patch.diff"), dst)
        shutil.copy(demo, dst)
        meta["verification"] = out
        with open(os.path.join(dst, "meta.json"), "w") as f:
            json.dump(meta, f, indent=1)
        print(json.dumps({k: out[k] for k in (
            "seed_id", "demo_unpatched_rc", "baseline_ok", "demo_patched_rc",
            "valid_seed", "detected_by")}, indent=None))
        for k, v in out["checks"].items():
            print("  ", k, "rc", v["rc"], "violations", v["violation_lines"],
                  (v["first"][0] if v["first"] else ""))
    finally:
        sh(["git", "-C", "/repo", "worktree", "remove", "--force", wt])
        shutil.rmtree(wt, ignore_errors=True)
    return 0


if __name__ == "__main__":
    sys.exit(main())

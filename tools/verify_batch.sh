#!/bin/bash
# usage: tools/verify_batch.sh <wave a|b|..> C01 C04 ...   (verifies /tmp/seed/<P>_<wave>_out/m{1,2,3})
W=$1; shift
mkdir -p /tmp/vs_logs
for P in "$@"; do
  for k in 1 2 3; do
    d=/tmp/seed/${P}_${W}_out/m$k
    [ -f "$d/patch.diff" ] || continue
    echo "$d ${P}_${W}_m$k"
  done
done | xargs -P 5 -L 1 bash -c 'python3 /verif/tools/verify_seed.py $0 $1 > /tmp/vs_logs/$1.log 2>&1; grep -h "^{\"seed_id\"" /tmp/vs_logs/$1.log || tail -2 /tmp/vs_logs/$1.log'

#!/bin/bash
# usage: tools/verify_batch.sh C01 C04 ...   (verifies /tmp/seed/<P>_a_out/m{1,2,3})
mkdir -p /tmp/vs_logs
for P in "$@"; do
  for k in 1 2 3; do
    d=/tmp/seed/${P}_a_out/m$k
    [ -d "$d" ] || continue
    echo "$d ${P}_a_m$k"
  done
done | xargs -P 5 -L 1 bash -c 'python3 /verif/tools/verify_seed.py $0 $1 > /tmp/vs_logs/$1.log 2>&1; tail -4 /tmp/vs_logs/$1.log | head -1'

#!/usr/bin/env python3
"""Print a markdown table of /verif/seeded/*: what each change does, what it
needs to manifest, which of our checks reported it."""
import glob, json, os
rows = []
for d in sorted(glob.glob("/verif/seeded/C*_*_m*/")):
    d = d.rstrip("/")
    m = json.load(open(os.path.join(d, "meta.json")))
    v = m.get("verification", {})
    det = ", ".join(v.get("detected_by", [])) or "MISSED"
    rows.append("| %s | %s | %s | %s | %s |" % (
        os.path.basename(d), m.get("property"),
        m.get("summary", "").replace("|", "/")[:150],
        m.get("needs_to_manifest", "").replace("|", "/")[:140], det))
print("| seed | property | change | needs | detected by |\n|---|---|---|---|---|")
print("\n".join(rows))

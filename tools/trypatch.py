#!/usr/bin/env python3
"""tools/trypatch.py PROP[,PROP2] PATCH [--tier quick|thorough] [--wt DIR]
Apply PATCH inside a private scratch worktree of /repo HEAD, run our check(s)
against it (VERIF_REPO), revert.  Never touches /repo."""
import os, subprocess, sys


def main():
    props, patch = sys.argv[1:3]
    tier, wt = "quick", os.environ.get("MUT_WT", "/tmp/wt_lead")
    a = sys.argv[3:]
    while a:
        if a[0] == "--tier":
            tier = a[1]
        elif a[0] == "--wt":
            wt = a[1]
        a = a[2:]
    head = subprocess.check_output(["git", "-C", "/repo", "rev-parse", "HEAD"],
                                   text=True).strip()
    if not os.path.isdir(wt):
        subprocess.check_call(["git", "-C", "/repo", "worktree", "add",
                               "--detach", wt, "HEAD"],
                              stdout=subprocess.DEVNULL)
    subprocess.check_call(["git", "-C", wt, "checkout", "-q", "--detach",
                           head])
    subprocess.check_call(["git", "-C", wt, "apply", os.path.abspath(patch)])
    try:
        for prop in props.split(","):
            env = dict(os.environ, VERIF_REPO=wt, VERIF_NO_EVIDENCE="1")
            r = subprocess.run(["/venv/bin/python", "/verif/mc/run.py",
                                "--property", prop, "--tier", tier],
                               env=env, capture_output=True, text=True)
            lines = [l for l in r.stdout.splitlines() if l.strip()]
            nv = sum(1 for l in lines if l.startswith("VIOLATION"))
            first = [l for l in lines if l.startswith("  violation")][:3]
            print("%s rc=%d VIOLATION-lines=%d" % (prop, r.returncode, nv))
            for l in first:
                print("   ", l[:260])
            if r.returncode not in (0, 1):
                print(r.stderr[-1500:])
    finally:
        subprocess.check_call(["git", "-C", wt, "checkout", "-q", "--", "."])
        subprocess.call(["git", "-C", wt, "clean", "-fdq"])


if __name__ == "__main__":
    sys.exit(main())

#!/usr/bin/env python3
"""Regenerate /verif/MANIFEST.json from the table below (keeps it valid)."""
import json
import os

VERIF = os.path.dirname(os.path.dirname(os.path.abspath(__file__)))

# property -> (design section, level text, level note, technique)
CHECKS = {
    "C19": ("4/C19",
            "Bounded-exhaustive exploration on the real functions: every "
            "point of a signed coordinate lattice (incl. both zeros, 1e-9, "
            "1e9), all 9 ordered pairs and 27 three-step compositions of "
            "coordinate systems, every Euler triple of an angle alphabet "
            "(radians and degrees), every subset of a 6-sphere alphabet as "
            "composite x rotations x translations x both call forms, each "
            "compared with a reference model written with math/numpy only.",
            "Trusted: numpy/math trig; only alphabet values are covered "
            "(values between lattice points are not).",
            "bounded-exhaustive input enumeration vs independent reference "
            "model (explicit-state, stateless)"),
}

CHECKS["C02"] = (
    "4/C02",
    "Bounded-exhaustive exploration of the real solvers (Fortran Mie, "
    "Multisphere one-sphere cluster with both interaction solvers and "
    "default/tight options, pure-Python Mie series, layered Mie) over a "
    "complete product alphabet: relative index x size parameter (1e-3..400) "
    "x 4 option pairs x radial distances x 7 polar x 6 azimuthal angles x 4 "
    "polarization angles; every index sequence of length 1-4 over a "
    "3-letter alphabet for the layered equivalences.  Each execution is "
    "compared with a textbook Bohren-Huffman series whose coefficients come "
    "from a 60-digit mpmath table.",
    "Trusted: mpmath Bessel functions, scipy spherical Bessel functions, "
    "numpy.  Tolerances are >=30x above the floor measured on the unchanged "
    "tree (recorded in the evidence); values between alphabet points are "
    "not covered.",
    "bounded-exhaustive input/configuration enumeration vs independent "
    "reference model")

CHECKS["C03"] = (
    "4/C03",
    "Bounded-exhaustive exploration of calc_cross_sections / "
    "calc_scat_matrix on the product alphabet relative index (real, weakly "
    "and strongly absorbing) x size parameter 1e-3..500 x medium index x "
    "wavelength x polarization, layered spheres, one-sphere and two-sphere "
    "clusters: energy balance, sign/range constraints, optical theorem "
    "across the two entry points, exact Gauss-Legendre solid-angle integrals "
    "(polynomial integrand, so a deterministic identity), textbook series "
    "from the mpmath table, Rayleigh limit, k^2 scaling.",
    "Trusted: mpmath table, numpy leggauss.  Tolerances >=30x above the "
    "measured floor; alphabet values only.",
    "bounded-exhaustive input enumeration vs independent reference model")

CHECKS["C01"] = (
    "4/C01",
    "(1) Deviation-bounded exhaustive product over scatterer x theory (19), "
    "detector kind (8: grids of several shapes/spacings/origins, point lists, "
    "2-channel), polarization (5), scaling (5), optics-passing mode (2) on "
    "the real calc_holo/calc_field/calc_intensity: the statement itself "
    "(|alpha E + p|^2, |E|^2, alpha=0 -> 1), finiteness, coordinates, "
    "metadata, input purity, plus an independent textbook-Mie anchor.  (2) "
    "Stateless explicit exploration of every operation sequence of length "
    "<= 3 over an alphabet of 8/12 calls (Mie, Multisphere, T-matrix "
    "spheroid A/B/cylinder, MieLens, cross sections, scattering matrix) "
    "sharing one interpreter, one detector and the scatterer objects: every "
    "step must be bit-identical to the same call in a pristine (forked) "
    "interpreter and leave the shared inputs untouched.",
    "Trusted: fork() yields a pristine interpreter; mpmath table for the "
    "anchor.  Sequences longer than 3 and values outside the alphabets are "
    "not covered.",
    "bounded-exhaustive input enumeration + exhaustive operation-sequence "
    "search (depth 3) with differential pristine-process oracle")
CHECKS["C20"] = (
    "4/C20",
    "Bounded-exhaustive exploration of contains/in_domain/index_at/bounds/"
    "voxelate/overlaps/largest_overlap on explicit shape alphabets: lattice "
    "+ fixed low-discrepancy probe set + points at (1 +- 1e-9) of every "
    "surface and layer boundary; every ordered pair of 5 primitives under "
    "the 3 set operations, each under 2 translations; voxel spacings "
    "r/4..r/64; every subset (and every order up to a bound) of two "
    "8-sphere placements incl. exactly touching and nested pairs x warn "
    "flag; explicit invalid inputs.  Oracles in long double / exact "
    "rationals.",
    "Trusted: numpy long double / fractions; points exactly on a surface are "
    "not decided (strict vs non-strict is outside the statement).",
    "bounded-exhaustive input enumeration vs analytic reference model")

CHECKS["C04"] = (
    "4/C04",
    "Exhaustive product scatterer x theory (Mie, layered, Mie superposition, "
    "Multisphere, T-matrix sphere/spheroid/cylinder, MieLens, "
    "AberratedMieLens, Lens) x length scale (powers of two and decimal "
    "factors spanning 2^-13..1e9) x detector kind x quantity (hologram, "
    "field, intensity, scattering matrix, cross sections) plus the medium "
    "renormalisation for three medium indices.  Power-of-two rescaling must "
    "reproduce every bit, which holds for any order of floating-point "
    "operations, so the oracle needs no tolerance and survives "
    "refactoring; decimal factors 1e-9.",
    "Trusted: IEEE-754 exactness of power-of-two scaling (no under/overflow "
    "in the explored range).  Alphabet values only.",
    "bounded-exhaustive input/configuration enumeration with a metamorphic "
    "(self-referential) oracle")

CHECKS["C05"] = (
    "4/C05",
    "Exhaustive product scatterer x theory (Mie, layered, superposition, "
    "Multisphere 3-cluster, T-matrix shapes, MieLens above/below focus, "
    "Lens(Mie) above/below, AberratedMieLens) x transformation alphabet: 6 "
    "shift vectors (whole-pixel, fractional, irrational, 1e3) on grids and "
    "point detectors; rotation angle (9) x polarization angle (4) x pivot "
    "(2) with scatterer, polarization and detector rotated together; mirror "
    "planes and sphere symmetry on odd/even grids.  Metamorphic oracle: "
    "transformed vs base configuration; the transverse field must rotate "
    "as a vector.",
    "Trusted: nothing beyond numpy; T-matrix accepts only polarization "
    "(1,0) so only shift/mirror apply to it.  Alphabet values only.",
    "bounded-exhaustive input/configuration enumeration with metamorphic "
    "oracle")
CHECKS["C10"] = (
    "4/C10",
    "Exhaustive products on the real T-matrix code: sphere limit (size x "
    "index x 6 polar x 7 azimuth) through calc_scat_matrix, calc_field and "
    "Lens(Tmatrix) vs far-field Mie; equal-axes spheroid vs sphere over an "
    "orientation alphabet; spin / axis-reversal / mirror symmetries for 7 "
    "shapes x 4 orientations; robustness: full product shape x size x beta "
    "x gamma (incl. negative, >pi, >2pi, +-100, pi+1e-9) plus sizes beyond "
    "the Fortran array limits, every execution in its own forked child: "
    "outcome must be finite values or a Python exception (a dead child or "
    "a hang is a violation), and out-of-range angles must agree with the "
    "same axis direction written in range.",
    "Trusted: Mie far field (itself checked against the textbook series in "
    "C02).  120 s horizon per execution.  Alphabet values only.",
    "bounded-exhaustive input enumeration with process-level fault "
    "observation (fork isolation) and differential oracle")
CHECKS["C18"] = (
    "4/C18",
    "Bounded-exhaustive exploration of normalize / bg_correct / subimage / "
    "zero_filter / detrend / Accumulator / center_find / make_center_priors: "
    "all shapes in [3..8]^2 x value sets, every crop centre and even size "
    "that fits, every single dead-pixel position and every non-adjacent "
    "pair on 5x6, plane-coefficient alphabet^3, every permutation of 2-5 "
    "pushes (queried after every push, at the end, and as plain arrays), "
    "and a lattice of computed single-sphere holograms (detector size x "
    "(r,n,z) x 5x5 lattice x sub-pixel offsets) for the centre finder "
    "(per-axis error <= 1 px).",
    "Trusted: numpy.  'Within one pixel' is read per axis (the weaker "
    "reading).  Alphabet / lattice values only.",
    "bounded-exhaustive input and push-order enumeration vs numpy "
    "reference model")

CHECKS["C06"] = (
    "4/C06",
    "(A) every subset (size <= 6 thorough) of a 6-sphere alphabet (uniform, "
    "layered, absorbing) x {Mie, MieLens, Lens(Mie)} x {grid, points}: "
    "field(collection) = sum of member fields; (B) 7 polarization vectors "
    "(any norm, negative, tiny components) x {Mie, Multisphere, MieLens, "
    "Lens} x 3 scatterers: field = (a F_x + b F_y)/|(a,b)|; (C) "
    "deviation-bounded product over channel count, the kind (scalar / dict "
    "/ labelled array) of wavelength, polarization, index, radius, scaling "
    "and noise, detector kind and every permutation of the label order of "
    "every dictionary: each channel must equal the single-channel call "
    "within 8 ulp.",
    "Trusted: numpy/xarray label-based selection.  Channel order along the "
    "axis is not asserted (channels are addressed by label).  Alphabet "
    "values only.",
    "bounded-exhaustive input/configuration enumeration with differential "
    "(single-channel / member-wise) oracle")

CHECKS["C07"] = (
    "4/C07",
    "Inputs: product grid shape (incl. 1xN, Nx1, odd, 1x1) x spacing "
    "(isotropic/anisotropic) x origin x theory (Mie, Multisphere, T-matrix, "
    "MieLens with/without interpolation); for every grid the same "
    "locations as explicit points, EVERY axis-aligned sub-rectangle (and "
    "subimage crops), every subset size 1..N x seeds 0..4 (distinctness, "
    "reproducibility, coordinates, original axes, commutation with the "
    "forward calculation); environment enumeration: every ordered "
    "k-selection (1956) numpy.random.choice could answer for a 2x3 image "
    "through a scripted seam.  Histories: every sequence of length <= 3 "
    "over 8 operations sharing one detector and one scatterer object, each "
    "step bit-identical to its pristine-interpreter reference and leaving "
    "the shared inputs' fingerprints unchanged.",
    "Trusted: fork() gives a pristine interpreter.  MieLens values compared "
    "to 1e-11 / 1e-7 (vectorised reductions, per-call interpolation "
    "decision), everything else bit-identical.",
    "bounded-exhaustive input enumeration + scripted-environment "
    "enumeration + exhaustive operation-sequence search (depth 3)")

CHECKS["C14"] = (
    "4/C14",
    "Bounded-exhaustive exploration of the prior classes: 28 Uniform bound "
    "pairs (finite / half-infinite / improper) x guess options, Gaussian "
    "and BoundedGaussian parameter alphabets over many decades, evaluation "
    "points on, beside (1 ulp) and far from every bound; scripted "
    "environment: the module-level random source used by the samplers is "
    "replaced and every quantile answer and, for the bounded-Gaussian "
    "rejection loop, every answer sequence with <= 3 out-of-support draws "
    "is enumerated for sizes None/1/3/7; COMPLETE enumeration of all "
    "operator expressions of depth <= 2 (270k) and comb-shaped depth 3 "
    "(thorough) over priors and numbers with the six binary and three "
    "unary operators incl. NumPy functions; ComplexPrior part "
    "combinations; constructor rejections.  Closed-form densities / CDFs "
    "as reference; a deterministic empirical-CDF distance under fixed "
    "seeds backs the distribution statement.",
    "Trusted: numpy's generator and special functions.  'Follow the "
    "declared distribution' is decided structurally (family, parameters, "
    "every scripted answer mapped into the support) plus ECDF under seeds "
    "0..4; bushy depth-3 trees are not enumerated (reported as not "
    "exhaustive in thorough).",
    "bounded-exhaustive input + scripted-environment enumeration vs "
    "closed-form reference model")

CHECKS["C11"] = (
    "4/C11",
    "(1) Program enumeration on the real Model/Mapper: scatterer structure "
    "(single, layered, collections of 1-4, nested) x subset of prior sites "
    "(<= 4) x EVERY set partition of the chosen sites into shared prior "
    "objects x naming pattern (unnamed / named / colliding / looks-like-"
    "auto-name) x wrapper (bare, 2*P, P+Q, ComplexPrior, np.sqrt, "
    "per-channel dict): parameter count = distinct priors, unique names, "
    "value-to-place mapping for three value vectors, dict-keyed = "
    "list-ordered, initial-guess scatterer, fixed values untouched.  (2) "
    "Explicit-state breadth-first search over Model.add_tie from fresh "
    "models with up to 5 equal tie candidates + 1 unequal: every subset x "
    "new_name option as a transition, states canonicalised and "
    "deduplicated, a union-find reference model checked in every state "
    "(2151 states / 54789 transitions in thorough), refusals must leave the "
    "state unchanged; live objects rebuilt by replaying histories.  (3) "
    "from_parameters(parameters) round trips incl. RigidCluster and "
    "aliasing checks.",
    "Trusted: the union-find reference model.  A prior shared between the "
    "scatterer and a non-scatterer place (alpha/optics) is outside the "
    "statement and only recorded.",
    "explicit-state BFS over the real transition function (add_tie) with "
    "canonical-state deduplication + bounded-exhaustive program "
    "enumeration vs reference model")

CHECKS["C09"] = (
    "4/C09",
    "Exhaustive on the real Multisphere solver: every subset of size 1-4 "
    "of a 6-sphere alphabet (mixed size/index, one absorbing) on a fixed "
    "3-D lattice x EVERY permutation of the list x both interaction "
    "solvers x default/tightened options; 5- and 6-sphere clusters under "
    "all adjacent transpositions, reversal and list rotations; rotation "
    "about the optical axis (5 angles, off-axis pivot, polarization "
    "rotated along) with the transverse field required to rotate as a "
    "vector; one-sphere cluster vs Mie.  Default-theory rule over 27 "
    "scatterer kinds incl. separations 30-1ulp / 30 / 30+1ulp (largest "
    "radius), layered member, missing centre, T-matrix shapes, DDA-routed "
    "shapes (missing-dependency error), non-scatterers; theory='auto' must "
    "be bit-identical to naming the theory.",
    "Trusted: nothing beyond numpy.  Order-independence tolerances reflect "
    "the iterative solver's measured accuracy (floors in the evidence).  "
    "adda is absent: DDA can only be observed refusing.",
    "bounded-exhaustive input/permutation enumeration with metamorphic and "
    "rule-table oracles")

CHECKS["C13"] = (
    "4/C13",
    "Inputs: product of generating parameter sets (index, radius, depth, "
    "in-plane position incl. sub-pixel offsets, scaling incl. a value on "
    "its prior bound... ) x starting points (truth, every single-parameter "
    "+-2%, the 2^6 sign corners at 1%) x {NmpfitStrategy, "
    "LeastSquaresScipyStrategy} x {full image, seeded 150-pixel subset} on "
    "noise-free data from the model's own forward calculation, plus "
    "MieLens with a fitted lens angle: fixed point from the truth, misfit "
    "never worse than the guess, parameters within prior bounds, recovery "
    "(position/radius/scaling free, as the property states), names, "
    "result.hologram / max_lnprob bit-identical to the forward model, "
    "repeat fit identical, model/data/strategy untouched; save/load "
    "cycles 1-3 per strategy x data kind.  Histories: every sequence of "
    "length <= 3 over {fit Nmpfit, fit Nmpfit-subset, fit SciPy, "
    "save+load, read .hologram} on one shared model/data/strategy triple "
    "vs pristine-interpreter references.",
    "Trusted: fork() gives a pristine interpreter; the global numpy RNG is "
    "seeded by the harness before fits that draw pixel subsets.  Optimiser "
    "behaviour is decided on the enumerated problems only.",
    "bounded-exhaustive input/configuration enumeration + exhaustive "
    "operation-sequence search (depth 3) with differential oracle")
CHECKS["C17"] = (
    "4/C17",
    "Bounded-exhaustive on the real fft/ifft/propagate: ALL shapes in "
    "[2..9]^2 (quick [2..6]^2) plus odd/even mixes up to 64, for each the "
    "COMPLETE unit-impulse basis (real and imaginary) so that the linear "
    "map is fully determined, impulse pairs for linearity, dense real and "
    "complex images; spacings on both sides of half the medium wavelength "
    "(and of lambda/sqrt2 for the diagonal), anisotropic spacing with "
    "shifted origin; distance alphabet of both signs and many magnitudes, "
    "all ordered pairs for the group law, lists incl. zeros, cfsp and "
    "gradient-filter options: inverse with coordinates, fft == numpy, "
    "d=0 identity, P(d2)P(d1)=P(d1+d2), P(-d)P(d)=1 at coarse sampling, "
    "linearity, operator norm <= 1, list = stack of singles, coordinates / "
    "attrs / name preserved, inputs (incl. the distance list) untouched.",
    "Trusted: numpy.fft.  The frequency grid / sign convention of the "
    "transfer function is not asserted (any convention that keeps the "
    "stated identities passes).",
    "bounded-exhaustive input enumeration (complete impulse bases) vs "
    "numpy reference and algebraic identities")

CHECKS["C08"] = (
    "4/C08",
    "Deviation-bounded product (D=2 quick, FULL product of 700 vectors "
    "thorough) over relative index x size parameter x k*z (both signs) x "
    "lens angle; in each vector 4 polarization angles x 18 detector "
    "positions: MieLens (100 and 200 quadrature nodes) vs Lens(Mie) refined "
    "along a fixed quadrature ladder until two rungs agree per point "
    "(points where the ladder does not converge are counted and asserted "
    "about nothing); aberrated variant with zero coefficients in 4 "
    "spellings; interpolation check/on/off and window/degree options; Lens "
    "with unequal theta/phi orders; acceleration-library code path via a "
    "shim; dedicated large-rho cut-off cases.",
    "Trusted: the reference is HoloPy's own Lens(Mie) (a different code "
    "path whose inner Mie amplitudes are checked against the textbook "
    "series in C02), accepted only where converged.  Real numexpr is not "
    "installed (shim only).",
    "bounded-exhaustive input/configuration enumeration with a "
    "convergence-ladder differential oracle")
CHECKS["C16"] = (
    "4/C16",
    "Bounded-exhaustive on the real I/O: HDF5 save/load cycles 1-3 over "
    "shape x dtype x spacing x name x file-name form x kind of every "
    "metadata field (None / scalar / per-channel dict / labelled array), "
    "values and coordinates bit-identical; TIFF export/import over channel "
    "layout x scaling x depth (values within one quantisation step of the "
    "stated scaling); load_image of PIL-written gray/RGB/RGBA rasters x "
    "channel requests x spacings (pixel (i,j) at (i s_x, j s_y), channels "
    "in requested order); load_average over EVERY permutation of the file "
    "list for 1-4 images with/without reference image; update_metadata "
    "over every subset of the four fields x value kinds (new object, only "
    "named fields change, unit polarization, original untouched); all "
    "enabled operation sequences of length 3 (4 thorough) over 7 file "
    "operations vs a reference model of the file contents.",
    "Trusted: PIL for writing reference rasters, numpy.  TIFF cannot carry "
    "channel labels (compared by position).",
    "bounded-exhaustive input + operation-sequence enumeration vs "
    "reference model")

CHECKS["C12"] = (
    "4/C12",
    "Deviation-bounded product over model kind (11: scaling prior/fixed, "
    "counting calc_func, LimitOverlaps fractions, shared radius prior, "
    "fitted lens angle, medium-index parameter) x noise source (9) x optics "
    "source (4) x prior-kind pattern x data kind (grid / flat pixel subset "
    "/ noisy); for each configuration every parameter takes {guess, lower "
    "bound, upper bound, 1 ulp outside each, interior, far outside / "
    "invalid scatterer / constraint boundary} (full product for small "
    "models): lnprior = closed-form sum, -inf exactly when outside support "
    "/ invalid / constraint violated AND the forward-calculation counter "
    "does not move, lnposterior = lnprior + lnlike, lnlike = Gaussian "
    "log-density of the residuals with the applicable noise, forward() "
    "bit-identical to the public calc_holo on substituted objects, "
    "LnpostWrapper; environment enumeration: every ordered k-selection of "
    "a 2x2 (2x3) image through a scripted numpy.random.choice for the "
    "pixels=k path.",
    "Trusted: closed-form densities written in the check; the counting "
    "seams (calc_func and the module attribute calc_holo).  Not a full "
    "product over configuration axes (deviation bound 2).",
    "bounded-exhaustive input + scripted-environment enumeration vs "
    "closed-form reference model")

CHECKS["C15"] = (
    "4/C15",
    "Object-grammar enumeration on the real serializer: every class "
    "exported by holopy.scattering(.scatterer/.theory) and holopy.inference "
    "that derives from HoloPyObject is discovered by introspection (42 "
    "classes); per constructor argument an explicit alphabet by kind "
    "(reals incl. 1e-300/1e300/-0.0/int, complex, numpy scalars of several "
    "widths, list/tuple/ndarray vectors, nested priors of every kind incl. "
    "derived and ufunc ones, theories inside Lens, dicts, explicit None); "
    "every label of every argument as a single deviation, full product for "
    "classes with <= 3 arguments, deviation bound 2 (quick) / 3 (thorough) "
    "for wide ones; models with ties, constraints, per-channel optics.  "
    "Targets: file name, open stream, yaml dump/load; 1-3 cycles and all "
    "mixed-target sequences for base objects.  Oracle: canonical "
    "constructor-argument tree equal after load, text fix-point, library "
    "equality, and for models names / ties / value-to-place mapping.",
    "Trusted: the canonicalisation in the check.  'Randomly generated "
    "arguments' of the property are replaced by explicit alphabets (no "
    "sampling).  Result classes (HDF5) belong to C13; DDA cannot be "
    "constructed (adda absent).",
    "bounded-exhaustive object-grammar enumeration x save/load sequence "
    "enumeration vs canonical-form reference")

NOT_YET = {}


# additions made after the seeded waves 6-10 (DESIGN 9.6), appended to the level text
ADDED = {
    "C14": "Also (wave 9): derived priors renamed on the way and combined with their base prior again.",
    "C13": "Also (wave 9): the lazily computed attributes of one result object read in every sequence of <= 3, then compared with the forward model. Coordinates and metadata of the result's hologram after any reads / saves against an untouched copy; saving after reads.",
    "C01": "Also (wave 9): history operations that differ from one another in one theory option only (acceptance angle, aberration coefficients, quadrature order, solver tolerances, absorption of one cluster member).",
    "C02": "Also: sizes on narrow resonances (committed table), size parameters that are multiples of pi, distance shells at whole numbers of half wavelengths and at kr = 1e5 each judged against its own largest field, one theory object reused along a sequence of calls that differ in one argument. Size ladders (wave 10): five radii on one detector (ring, centred grid, one point, forward direction) through Mie, asymptotic Mie, a one-sphere cluster and MieLens, every ordered pair and the ladder up and down, each step against the same call alone in a forked interpreter.",
    "C03": "Also: C_ext, C_sca and g of an oblique dimer re-derived from the full amplitude matrix of calc_scat_matrix (48 x 64 directions).",
    "C04": "Also: particles 61 and 401 length units deep, detectors given as directions only. One theory object through a scan of nearly equal particles (0.1-4 percent steps in radius, index, depth) in every unit, including units in which sizes are ~1e-6 and ~1e-9. Eight (medium, wavelength) pairs one after the other in one interpreter, each against its reduced description.",
    "C05": "Also: the radial near-field option of the cluster solver.",
    "C06": "Also: the full product of the forms of wavelength, polarization and index (each labelled form in two channel orders), typed polarization arrays, layered spheres with labelled per-channel arrays. Channels through every sphere theory (Mie, MieLens, AberratedMieLens, Lens(Mie), Multisphere, collections) with wavelengths all different, all equal and equal in pairs.",
    "C07": "Also: planes of a volume against single planes, a 131 x 130 detector against crops and point lists, crops of a 100 x 100 image under MieLens, subsets of subsets. Every sequence of <= 2 (thorough 3) detector constructions from the same argument objects (coordinate dictionary, spacing list, extra_dims). Clusters of different expansion order on shared detectors (ring, grid, corner points), every ordered pair.",
    "C08": "Also: nearly planar point lists through the lens wrapper, from_parameters of the lens theories.",
    "C09": "Also: detectors 0.8 and 8 mm away for one-sphere clusters; rotation covariance exact up to the solver's discrete truncation states (agreeing pairs among six orientations). Every ordered pair (thorough: triples over six) of calculations on clusters that differ from one another in one respect only (absorption, index, radius, position, listing order), each against the same cluster computed first in an interpreter. Axis-aligned dimers at several separations in the history alphabet.",
    "C10": "Also: equal-axes spheroids at size parameters 15 and 20 in tilted orientations. Orientation and detector angles a rounding error away from the ends of the principal range.",
    "C11": "Also: reflected subtraction and numerically labelled dictionaries as wrappers. Value-equal separate priors, each wrapped in an equal expression of its own.",
    "C12": "Also: the pixels option on data that are a subset already, several constraints. One model object against four data sets (noise level, values, shape, pixel size, wavelength) in every sequence of <= 3. Every likelihood a second time right after the prior of another point.",
    "C15": "Also: explicit None for flags whose default is not None.Also (wave 10): six objects of different written length saved under one file name in every sequence of <= 3 (4).",
    "C16": "Also: images named like one of their axes, typed and labelled polarization arrays.",
    "C17": "Also: nearly evenly spaced distance lists.",
    "C18": "Also: frames of mixed types, a zero background count under a dark frame. Every ordered pair of (tool, frame) operations over 8 tools x 5 frames of one recording in one interpreter (triples inside a tool), each step bit-identical to the same call in a pristine interpreter, inputs untouched.",
    "C19": "Also: narrow integer / float angle types in degrees, quarter turns and their multiples. A RigidCluster whose pose containers and spheres are changed in place between reads: every sequence of <= 3 (thorough 4) changes over 8 kinds x 2 container types. Composites moved step by step: every sequence of <= 3 (4) of two rotations, two translations, a read, an added member.",
    "C20": "Also: voxel grids beyond 2**16 points with every voxel against the analytic inequality, radii in single / half precision.",
}
for _pid, _txt in ADDED.items():
    _c = CHECKS[_pid]
    CHECKS[_pid] = (_c[0], _c[1] + "  " + _txt) + tuple(_c[2:])


def main():
    props = [json.loads(l) for l in open(os.path.join(VERIF,
                                                      "properties.jsonl"))]
    checks = []
    na = []
    for p in props:
        pid = p["id"]
        if pid in CHECKS:
            sec, text, note, tech = CHECKS[pid]
            checks.append({
                "property_id": pid,
                "quick_cmd": "/venv/bin/python /verif/mc/run.py --property "
                             "%s --tier quick" % pid,
                "thorough_cmd": "/venv/bin/python /verif/mc/run.py "
                                "--property %s --tier thorough" % pid,
                "evidence_file": "/verif/evidence/%s.json" % pid,
                "replay_cmd_template": "/venv/bin/python /verif/mc/replay.py"
                                       " {path}",
                "engine": "mc-explorer",
                "level_claimed": {"category": "model_checking", "text": text,
                                  "design_ref": "DESIGN.md section " + sec},
                "level_note": note,
                "technique": tech,
            })
        else:
            na.append({"property_id": pid,
                       "reason": NOT_YET.get(
                           pid, "check not built yet in this session "
                           "(planned in DESIGN.md section 4); not claimed "
                           "until its check exists")})
    man = {
        "version": 1,
        "setup_cmd": "/venv/bin/python /verif/mc/selftest.py",
        "hooks": {
            "guard": "HOLOPY_VERIF",
            "enable": "no source hooks are needed: checks stage /repo's "
                      "working tree, build the four Fortran extensions with "
                      "f2py+gcc+gfortran and drive public API; COMMON blocks "
                      "and numpy.random seams are reachable without edits",
            "baseline_off_cmd": "cd /repo && /venv/bin/python -m pytest -ra "
                                "-q -p no:cacheprovider --timeout=900 "
                                "--continue-on-collection-errors",
            "source_commits": [],
            "add_only": True,
        },
        "engines": [{
            "name": "mc-explorer",
            "path": "/verif/mc",
            "serves_properties": sorted(CHECKS),
            "kind_free_text": "hand-written explicit-state / bounded-"
                              "exhaustive explorer in Python driving the "
                              "real implementation (staged + compiled copy "
                              "of /repo's working tree) with fork-isolated "
                              "executions and independent reference models",
        }],
        "checks": checks,
        "not_applicable": na,
        "notes": "All checks: /venv/bin/python /verif/mc/run.py --property "
                 "Cxx --tier quick|thorough. Exit 0 held / 1 violation / 2 "
                 "cannot decide (build failure, harness error). The thorough "
                 "tier of every check also runs cross-case histories: every "
                 "ordered pair (A, B) of up to 30 of the property's own "
                 "cases in one interpreter, every assertion of B that holds "
                 "in a pristine interpreter must hold after A.",
    }
    with open(os.path.join(VERIF, "MANIFEST.json"), "w") as f:
        json.dump(man, f, indent=1)
    try:
        import jsonschema
        jsonschema.validate(man, json.load(
            open("/root/.vp/MANIFEST.schema.json")))
        print("MANIFEST.json valid; %d checks, %d not claimed" %
              (len(checks), len(na)))
    except ImportError:
        print("written (jsonschema not importable here)")


if __name__ == "__main__":
    main()

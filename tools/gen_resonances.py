#!/usr/bin/env python3
"""Regenerate mc/oracles/resonances.json (narrow resonances of homogeneous
spheres, see mc/oracles/resonances.py).  Run with /venv/bin/python."""
import json
import os
import sys
sys.path.insert(0, os.path.join(os.path.dirname(os.path.abspath(__file__)),
                                "..", "mc"))
from oracles import resonances as R

out = {}
for m in (1.5, 1.88, 2.0, 2.5 / 1.33):
    f = [r for r in R.resonances(m, 5.0, 21.0) if r[0] >= 6e-4]
    out[repr(m)] = [[x, kind, n, round(float(w), 6)] for w, x, kind, n in f]
    print(m, len(f))
path = os.path.join(os.path.dirname(os.path.abspath(__file__)), "..", "mc",
                    "oracles", "resonances.json")
json.dump(out, open(path, "w"), indent=0)

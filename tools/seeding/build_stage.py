"""Stage a private, compiled copy of /repo/holopy outside /repo and /verif.

The pinned environment has no compiled solvers; the four Fortran extensions
are built here from /repo's *current working tree* exactly as the
meson.build files prescribe (same source lists, f2py --lower), but by hand
(f2py wrapper generation + gcc + gfortran), which needs no meson and takes a
few seconds.  Build products are cached by a content hash of every Fortran
source / include file and the compiler+numpy versions; the cache is only an
optimisation: when it is absent everything is rebuilt.
"""
import hashlib
import os
import shutil
import subprocess
import sys
import sysconfig
import tempfile
import time

REPO = os.environ.get("VERIF_REPO", "/repo")
PY = "/venv/bin/python"

EXTS = {
    # name: (package dir relative to holopy/, sources relative to that dir)
    "uts_scsmfo": ("scattering/theory/mie_f",
                   ["uts_scsmfo.for", "../../third_party/SBESJY.F"]),
    "mieangfuncs": ("scattering/theory/mie_f",
                    ["mieangfuncs.f90", "uts_scsmfo.for",
                     "../../third_party/SBESJY.F",
                     "../../third_party/csphjy.for"]),
    "scsmfo_min": ("scattering/theory/mie_f", ["scsmfo_min.for"]),
    "S": ("scattering/theory/tmatrix_f", ["S.f", "ampld.lp.f", "lpd.f"]),
}
FORTRAN_SUFFIXES = (".f", ".for", ".f90", ".F", ".par.f", ".inc")


def scratch_root():
    for cand in (os.environ.get("VERIF_SCRATCH"), os.environ.get("TMPDIR"),
                 "/dev/shm", "/tmp"):
        if cand and os.path.isdir(cand) and os.access(cand, os.W_OK):
            real = os.path.realpath(cand)
            if real.startswith("/repo") or real.startswith("/verif"):
                continue
            return cand
    raise RuntimeError("no scratch directory available")


def _tool_versions():
    out = []
    for cmd in (["gfortran", "--version"], ["gcc", "--version"]):
        out.append(subprocess.run(cmd, capture_output=True,
                                  text=True).stdout.splitlines()[0])
    out.append(subprocess.run(
        [PY, "-c", "import numpy,sys;print(numpy.__version__,sys.version)"],
        capture_output=True, text=True).stdout)
    return "\n".join(out)


def _ext_key(name, repo_holopy, toolver):
    pkg, _ = EXTS[name]
    h = hashlib.sha256()
    h.update(toolver.encode())
    h.update(name.encode())
    # every fortran-ish file in the package dir and third_party: include
    # files (scfodim.for, ampld.par.f) matter as well as listed sources.
    dirs = [os.path.join(repo_holopy, pkg),
            os.path.join(repo_holopy, "scattering/third_party")]
    for d in dirs:
        for fn in sorted(os.listdir(d)):
            if fn.endswith(FORTRAN_SUFFIXES):
                h.update(fn.encode())
                with open(os.path.join(d, fn), "rb") as f:
                    h.update(f.read())
    return h.hexdigest()[:24]


def _build_one(name, repo_holopy, outdir):
    """Build extension `name` from sources under repo_holopy into outdir.
    Returns path of the shared object."""
    pkg, srcs = EXTS[name]
    srcdir = os.path.join(repo_holopy, pkg)
    work = tempfile.mkdtemp(prefix="b_" + name + "_", dir=outdir)
    # copy the whole package dir + third_party so INCLUDE statements resolve
    wpkg = os.path.join(work, "holopy", pkg)
    os.makedirs(os.path.dirname(wpkg), exist_ok=True)
    shutil.copytree(srcdir, wpkg)
    tp = os.path.join(work, "holopy", "scattering", "third_party")
    if not os.path.isdir(tp):
        shutil.copytree(os.path.join(repo_holopy, "scattering/third_party"),
                        tp)
    env = dict(os.environ)
    env["PYTHONPATH"] = ""
    bdir = os.path.join(work, "build")
    os.makedirs(bdir)
    r = subprocess.run([PY, "-m", "numpy.f2py"] + srcs +
                       ["-m", name, "--lower", "--build-dir", bdir],
                       cwd=wpkg, capture_output=True, text=True, env=env)
    if r.returncode != 0 or not os.path.exists(
            os.path.join(bdir, name + "module.c")):
        raise RuntimeError("f2py failed for %s:\n%s\n%s" %
                           (name, r.stdout[-3000:], r.stderr[-3000:]))
    inc = subprocess.run(
        [PY, "-c",
         "import numpy,sysconfig,os,numpy.f2py;"
         "print(sysconfig.get_paths()['include']);"
         "print(numpy.get_include());"
         "print(os.path.join(os.path.dirname(numpy.f2py.__file__),'src'));"
         "print(sysconfig.get_config_var('EXT_SUFFIX'))"],
        capture_output=True, text=True, env=env).stdout.split("\n")
    pyinc, npinc, f2pysrc, extsuf = inc[0], inc[1], inc[2], inc[3]
    cflags = ["-O2", "-fPIC", "-DNPY_NO_DEPRECATED_API=NPY_1_9_API_VERSION",
              "-I" + pyinc, "-I" + npinc, "-I" + f2pysrc, "-w"]
    r = subprocess.run(["gcc"] + cflags + ["-c", name + "module.c",
                        os.path.join(f2pysrc, "fortranobject.c")],
                       cwd=bdir, capture_output=True, text=True)
    if r.returncode != 0:
        raise RuntimeError("gcc failed for %s:\n%s" % (name, r.stderr[-3000:]))
    wrappers = [f for f in os.listdir(bdir) if "f2pywrappers" in f]
    fsrcs = [os.path.join(wpkg, s) for s in srcs]
    r = subprocess.run(["gfortran", "-O2", "-fPIC", "-w",
                        "-I" + wpkg, "-c"] + fsrcs + wrappers,
                       cwd=bdir, capture_output=True, text=True)
    if r.returncode != 0:
        raise RuntimeError("gfortran failed for %s:\n%s" %
                           (name, r.stderr[-3000:]))
    objs = [f for f in os.listdir(bdir) if f.endswith(".o")]
    so = name + extsuf
    r = subprocess.run(["gfortran", "-shared", "-o", so] + objs +
                       ["-lquadmath"], cwd=bdir, capture_output=True,
                       text=True)
    if r.returncode != 0:
        raise RuntimeError("link failed for %s:\n%s" %
                           (name, r.stderr[-3000:]))
    final = os.path.join(outdir, so)
    shutil.move(os.path.join(bdir, so), final)
    shutil.rmtree(work, ignore_errors=True)
    return final


def stage(repo=None, verbose=False):
    """Create <scratch>/hv_stage_XXXX/holopy (python sources from the
    working tree + compiled extensions).  Returns the stage dir (to be put on
    PYTHONPATH).  Caller removes it with cleanup()."""
    from concurrent.futures import ThreadPoolExecutor
    repo = repo or REPO
    t0 = time.time()
    root = scratch_root()
    stage_dir = tempfile.mkdtemp(prefix="hv_stage_", dir=root)
    dst = os.path.join(stage_dir, "holopy")
    shutil.copytree(os.path.join(repo, "holopy"), dst,
                    ignore=shutil.ignore_patterns("tests", "__pycache__",
                                                  "*.pyc", "*.so"))
    cache = os.path.join(root, "hv_build_cache")
    os.makedirs(cache, exist_ok=True)
    toolver = _tool_versions()

    def get(name):
        key = _ext_key(name, dst, toolver)
        cdir = os.path.join(cache, name + "_" + key)
        if os.path.isdir(cdir):
            sos = [f for f in os.listdir(cdir) if f.endswith(".so")]
            if sos:
                return name, os.path.join(cdir, sos[0]), True
        tmp = tempfile.mkdtemp(prefix="tmp_" + name + "_", dir=cache)
        so = _build_one(name, dst, tmp)
        try:
            os.rename(tmp, cdir)
            so = os.path.join(cdir, os.path.basename(so))
        except OSError:
            # somebody else built it concurrently
            if os.path.isdir(cdir):
                sos = [f for f in os.listdir(cdir) if f.endswith(".so")]
                shutil.rmtree(tmp, ignore_errors=True)
                so = os.path.join(cdir, sos[0])
        return name, so, False

    with ThreadPoolExecutor(4) as ex:
        res = list(ex.map(get, list(EXTS)))
    for name, so, cached in res:
        pkg = EXTS[name][0]
        try:
            shutil.copy2(so, os.path.join(dst, pkg, os.path.basename(so)))
            os.utime(os.path.dirname(so))         # mark as recently used
        except OSError:
            # the cache entry vanished (pruned by a concurrent run): build
            # straight into a private directory
            tmp = tempfile.mkdtemp(prefix="nocache_" + name + "_",
                                   dir=stage_dir)
            so2 = _build_one(name, dst, tmp)
            shutil.copy2(so2, os.path.join(dst, pkg, os.path.basename(so2)))
    # keep the cache small: drop entries beyond the 60 most recently used
    # that are older than an hour
    try:
        now = time.time()
        ents = sorted((os.path.getmtime(os.path.join(cache, e)), e)
                      for e in os.listdir(cache))
        for mt, e in ents[:-60]:
            if now - mt > 3600:
                shutil.rmtree(os.path.join(cache, e), ignore_errors=True)
    except OSError:
        pass
    if verbose:
        print("staged %s in %.1fs (%s)" % (
            stage_dir, time.time() - t0,
            ", ".join("%s:%s" % (n, "cached" if c else "built")
                      for n, _, c in res)), file=sys.stderr)
    return stage_dir


def cleanup(stage_dir):
    if stage_dir and os.path.basename(stage_dir).startswith("hv_stage_"):
        shutil.rmtree(stage_dir, ignore_errors=True)


if __name__ == "__main__":
    d = stage(verbose=True)
    print(d)

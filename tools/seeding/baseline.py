#!/usr/bin/env python3
"""Run the pinned baseline test command in REPO (default /repo) and check that
every test of BASELINE.json's stable_pass list still passes."""
import json, os, subprocess, sys, tempfile
import xml.etree.ElementTree as ET
repo = sys.argv[1] if len(sys.argv) > 1 else "/repo"
base = json.load(open("/root/.vp/BASELINE.json"))
with tempfile.TemporaryDirectory() as d:
    x = os.path.join(d, "j.xml")
    env = dict(os.environ); env.pop("HOLOPY_VERIF", None)
    subprocess.run(["/venv/bin/python", "-m", "pytest", "-ra", "-q", "-p", "no:cacheprovider",
                    "--timeout=900", "--continue-on-collection-errors", "--junitxml=" + x],
                   cwd=repo, env=env, stdout=subprocess.DEVNULL, stderr=subprocess.DEVNULL)
    passed = set()
    for tc in ET.parse(x).getroot().iter("testcase"):
        if not any(c.tag in ("failure", "error", "skipped") for c in tc):
            passed.add(tc.get("classname") + "::" + tc.get("name"))
missing = [t for t in base["stable_pass"] if t not in passed]
print("baseline: %d/%d stable tests pass; %d passed overall" % (len(base["stable_pass"]) - len(missing), len(base["stable_pass"]), len(passed)))
for t in missing[:20]: print("  MISSING", t)
sys.exit(1 if missing else 0)

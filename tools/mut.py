#!/usr/bin/env python3
"""tools/mut.py PROP[,PROP2] FILE OLD NEW [--tier quick]
Apply a one-off string replacement (first occurrence of OLD, must exist) to
FILE inside a private worktree of /repo, run the quick check(s) against
it, revert.  Never touches /repo."""
import os, subprocess, sys
WT = os.environ.get("MUT_WT", "/tmp/wt_lead")
def main():
    props, rel, old, new = sys.argv[1:5]
    tier = "quick"
    if not os.path.isdir(WT):
        subprocess.check_call(["git", "-C", "/repo", "worktree", "add", "--detach", WT, "HEAD"],
                              stdout=subprocess.DEVNULL)
    subprocess.check_call(["git", "-C", WT, "checkout", "-q", "--detach", subprocess.check_output(["git","-C","/repo","rev-parse","HEAD"],text=True).strip()])
    p = os.path.join(WT, rel)
    s = open(p).read()
    if old not in s:
        print("OLD not found"); return 2
    open(p, "w").write(s.replace(old, new, 1))
    try:
        for prop in props.split(","):
            env = dict(os.environ, VERIF_REPO=WT, VERIF_NO_EVIDENCE="1")
            r = subprocess.run(["/venv/bin/python", "/verif/mc/run.py", "--property", prop, "--tier", tier],
                               env=env, capture_output=True, text=True)
            lines = [l for l in r.stdout.splitlines() if l.strip()]
            nv = sum(1 for l in lines if l.startswith("VIOLATION"))
            first = [l for l in lines if l.startswith("  violation")][:2]
            print("%s rc=%d VIOLATION-lines=%d" % (prop, r.returncode, nv))
            for l in first: print("   ", l[:230])
            if r.returncode not in (0,1): print(r.stderr[-1500:])
    finally:
        subprocess.check_call(["git", "-C", WT, "checkout", "-q", "--", "."])
if __name__ == "__main__":
    sys.exit(main())
